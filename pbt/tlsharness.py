"""Async TLS session harness: AsyncTLSStreamTransport over MemStreamTransport against the independent TLSPeer, on
the virtual loop, with a conductor task that moves ciphertext in generated fragments and delays."""

from __future__ import annotations

import asyncio
from typing import Any

from easynetwork.lowlevel.api_async.backend._asyncio.backend import AsyncIOBackend
from easynetwork.lowlevel.api_async.transports.tls import AsyncTLSStreamTransport

from . import tlspeer
from .core import HarnessError
from .memtransports import MemStreamTransport


class Wire:
    """ciphertext in flight between the SUT's wrapped transport and the peer"""

    def __init__(self, mem: MemStreamTransport, peer: tlspeer.TLSPeer, frag_to_sut: list[int], frag_to_peer: list[int], delays: list[float]) -> None:
        self.mem = mem
        self.peer = peer
        self.to_peer = bytearray()
        self.to_sut = bytearray()
        self.all_from_sut = bytearray()
        self.all_from_peer = bytearray()
        self.frag_to_sut = frag_to_sut or [1 << 20]
        self.frag_to_peer = frag_to_peer or [1 << 20]
        self.delays = delays or [0.0]
        self.activity = asyncio.Event()
        self.progress = asyncio.Event()
        self.deliveries_to_sut = 0
        self.deliveries_to_peer = 0
        self.cut_to_sut_at: int | None = None  # absolute offset in the peer->SUT ciphertext stream after which nothing is delivered
        self.delivered_to_sut = 0
        self.eof_after_cut = True
        self.cut_done = False
        self.stop = False
        self.auto_close_reply = True  # peer answers a close_notify with its own
        self.split_records_seen = 0
        self._zero_run = 0
        self.eof_when_drained = False
        mem.on_send = self._on_sut_send

    def _on_sut_send(self, data: bytes) -> None:
        self.all_from_sut += data
        self.to_peer += data
        self.activity.set()

    def kick(self) -> None:
        self.activity.set()

    async def conductor(self) -> None:
        i = 0
        while not self.stop:
            moved = False
            if self.to_peer:
                n = max(1, self.frag_to_peer[self.deliveries_to_peer % len(self.frag_to_peer)])
                chunk = bytes(self.to_peer[:n])
                del self.to_peer[:n]
                self.peer.feed(chunk)
                self.deliveries_to_peer += 1
                moved = True
            out = self.peer.pump()
            if self.auto_close_reply and self.peer.zero_return and not self.peer.want_close:
                self.peer.close()
                out += self.peer.pump()
            if out:
                self.to_sut += out
                self.all_from_peer += out
                moved = True
            if self.to_sut and not self.cut_done and not self.mem.closed:
                n = max(1, self.frag_to_sut[self.deliveries_to_sut % len(self.frag_to_sut)])
                if self.cut_to_sut_at is not None:
                    n = min(n, self.cut_to_sut_at - self.delivered_to_sut)
                if n > 0:
                    chunk = bytes(self.to_sut[:n])
                    del self.to_sut[:n]
                    self.mem.feed(chunk)
                    self.delivered_to_sut += len(chunk)
                    self.deliveries_to_sut += 1
                    moved = True
            if self.cut_to_sut_at is not None and not self.cut_done and self.delivered_to_sut >= self.cut_to_sut_at:
                self.cut_done = True
                if self.eof_after_cut and not self.mem.closed and not self.mem.eof:
                    self.mem.feed_eof()
                moved = True
            if (
                self.eof_when_drained
                and not moved
                and not self.cut_done
                and self.peer.handshaken
                and not self.peer.to_write
                and not self.to_sut
                and not self.to_peer
                and not self.mem.closed
            ):
                # the peer has nothing more to say and will not send close_notify: the connection just ends
                self.cut_done = True
                if not self.mem.eof:
                    self.mem.feed_eof()
                moved = True
            if moved:
                self.progress.set()
                d = self.delays[i % len(self.delays)]
                i += 1
                if d > 0:
                    await asyncio.sleep(d)
                    self._zero_run = 0
                else:
                    # keep busy runs far below the virtual loop's SPIN_N rule (which would jump the clock to the
                    # next timer, e.g. the handshake timeout): every 40 zero-delay moves let the loop go idle once
                    self._zero_run += 1
                    if self._zero_run >= 40:
                        self._zero_run = 0
                        await asyncio.sleep(1e-9)
                    else:
                        await asyncio.sleep(0)
                continue
            self.activity.clear()
            # nothing to move: wait for the SUT or the scenario to produce something (no timer: a stuck SUT
            # becomes a Deadlock of the virtual loop)
            await self.activity.wait()

    async def wait_until(self, predicate: Any) -> None:
        while not predicate():
            self.progress.clear()
            self.kick()
            await self.progress.wait()


def make_sut_kwargs(sut_role: str, version: str) -> tuple[Any, dict]:
    if sut_role == "client":
        return tlspeer.client_context(version), {"server_side": False, "server_hostname": "localhost"}
    return tlspeer.server_context(version), {"server_side": True}


def new_session(case: dict) -> tuple[AsyncIOBackend, MemStreamTransport, tlspeer.TLSPeer, Wire]:
    backend = AsyncIOBackend()
    mem = MemStreamTransport(backend, script=case.get("mem_script"))
    peer = tlspeer.TLSPeer("server" if case["sut_role"] == "client" else "client", case.get("version", "1.3"))
    wire = Wire(mem, peer, case.get("frag_to_sut", []), case.get("frag_to_peer", []), case.get("delays", []))
    return backend, mem, peer, wire


async def wrap_sut(case: dict, mem: MemStreamTransport, **extra: Any) -> AsyncTLSStreamTransport:
    ctx, kw = make_sut_kwargs(case["sut_role"], case.get("version", "1.3"))
    # timeouts are not what the session checks are about: keep them out of reach of slow generated schedules
    kw.setdefault("handshake_timeout", 1e7)
    kw.setdefault("shutdown_timeout", 1e7)
    kw.update(extra)
    return await AsyncTLSStreamTransport.wrap(mem, ctx, standard_compatible=case.get("standard_compatible", True), **kw)
