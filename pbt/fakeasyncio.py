"""H5 (second half) — fake *asyncio* transports that play the selector transports underneath the real easynetwork
asyncio protocols/adapters.

`FakeAsyncioTransport` stands in for `asyncio.selector_events._SelectorSocketTransport` and
`FakeAsyncioDatagramTransport` for `_SelectorDatagramTransport` (CPython 3.12).  They reuse asyncio's own water-mark
logic (`asyncio.transports._FlowControlMixin`) and call the protocol callbacks (`connection_made`, `get_buffer`,
`buffer_updated`, `data_received`, `eof_received`, `datagram_received`, `error_received`, `pause_writing`,
`resume_writing`, `connection_lost`) at the same points and in the same order as the real transports do; the socket
and the selector are replaced by a small "kernel" model that the harness drives explicitly:

    user-space buffer (transport._buffer)  --pump()-->  kernel pipe (bounded)  --peer_read(k)-->  peer

* `write()` / `sendto()` first try to hand the data to the kernel (like the optimistic `sock.send`), buffer the rest
  and call `_maybe_pause_protocol()`;
* `pump()` is "the selector reports the socket writable": it runs `_write_ready()` / `_sendto_ready()` when a writer
  is registered, which calls `_maybe_resume_protocol()` and finishes a pending close / write_eof;
* `peer_read(k)` is the peer application reading: it frees kernel space (nothing else happens until `pump()`);
* `drain(k)` = `peer_read(k)` + `pump()`;
* `feed(data)` / `feed_eof()` / `feed_error(exc)` are "the selector reports the socket readable";
* `lose_connection(exc)` is a fatal socket error (`_fatal_error` -> `_force_close`), `abort()`/`close()` as in asyncio:
  `connection_lost` is always delivered with `loop.call_soon`.

One deliberate difference: `writelines()` calls `_maybe_pause_protocol()` when data stays buffered, as `write()`
does and as later CPython releases do; the 3.12.1 selector transport installed here forgets to (so a real
`writelines()` never pauses the protocol).  Set `writelines_pauses=False` to get the 3.12.1 behaviour.

Nothing here reads a clock or an RNG; everything is driven by harness calls, so schedules are replayable.
"""

from __future__ import annotations

import asyncio
import collections
import errno as _errno
import socket as _socket
from asyncio import transports as _transports
from typing import Any

from .core import HarnessError


class FakeKernelSocket:
    """ISocket-compatible stub (what `get_extra_info("socket")` returns) + the state of the fake kernel socket."""

    def __init__(
        self,
        sockname: tuple = ("127.0.0.1", 11111),
        peername: tuple | None = ("127.0.0.1", 22222),
        family: int = _socket.AF_INET,
        type: int = _socket.SOCK_STREAM,
    ) -> None:
        self._sockname = sockname
        self._peername = peername
        self._family = family
        self._type = type
        self.closed = False
        self.shut_wr = False
        self.options: dict[tuple[int, int], Any] = {}
        self._fileno = 2000 + (id(self) % 1000)

    def fileno(self) -> int:
        return -1 if self.closed else self._fileno

    def get_inheritable(self) -> bool:
        return False

    def getpeername(self) -> tuple:
        if self.closed:
            raise OSError(_errno.EBADF, "Bad file descriptor")
        if self._peername is None:
            raise OSError(_errno.ENOTCONN, "Transport endpoint is not connected")
        return self._peername

    def getsockname(self) -> tuple:
        if self.closed:
            raise OSError(_errno.EBADF, "Bad file descriptor")
        return self._sockname

    def getsockopt(self, *args: Any) -> Any:
        if self.closed:
            raise OSError(_errno.EBADF, "Bad file descriptor")
        val = self.options.get((args[0], args[1]), 0)
        if len(args) > 2:
            return val if isinstance(val, bytes) else b"\0" * args[2]
        return val if isinstance(val, int) else 0

    def setsockopt(self, *args: Any) -> None:
        if self.closed:
            raise OSError(_errno.EBADF, "Bad file descriptor")
        self.options[(args[0], args[1])] = args[2]

    def close(self) -> None:
        self.closed = True

    @property
    def family(self) -> int:
        return self._family

    @property
    def type(self) -> int:
        return self._type

    @property
    def proto(self) -> int:
        return 0


class _FakeBase(_transports._FlowControlMixin):
    """what `_SelectorTransport` provides, minus the selector"""

    max_size = 256 * 1024

    def __init__(self, loop: asyncio.AbstractEventLoop, sock: FakeKernelSocket, protocol: Any, extra: dict | None = None) -> None:
        super().__init__(extra, loop)
        self._extra["socket"] = sock
        try:
            self._extra["sockname"] = sock.getsockname()
        except OSError:
            self._extra["sockname"] = None
        if "peername" not in self._extra:
            try:
                self._extra["peername"] = sock.getpeername()
            except OSError:
                self._extra["peername"] = None
        self._sock: FakeKernelSocket | None = sock
        self._fake_sock = sock  # kept after connection_lost for the harness
        self._fake_loop = loop
        self._protocol: Any = protocol
        self._protocol_connected = True
        self._buffer: Any = collections.deque()
        self._conn_lost = 0
        self._closing = False
        self._paused = False
        self._reader_registered = False
        self._writer_registered = False
        # harness-visible history
        self.events: list[tuple] = []  # ("pause_writing",), ("resume_writing",), ("connection_lost", exc) ...
        self.pause_count = 0
        self.resume_count = 0
        self.connection_lost_called = False
        self.connection_lost_exc: BaseException | None = None
        self.send_error: BaseException | None = None  # raised by the next kernel send (fatal write error)

    # -- _FlowControlMixin calls self._protocol.pause_writing()/resume_writing(); count them
    def _maybe_pause_protocol(self) -> None:
        before = self._protocol_paused
        super()._maybe_pause_protocol()
        if self._protocol_paused and not before:
            self.pause_count += 1
            self.events.append(("pause_writing",))

    def _maybe_resume_protocol(self) -> None:
        before = self._protocol_paused
        super()._maybe_resume_protocol()
        if before and not self._protocol_paused:
            self.resume_count += 1
            self.events.append(("resume_writing",))

    def protocol_paused(self) -> bool:
        return self._protocol_paused

    # -- asyncio.BaseTransport
    def abort(self) -> None:
        self._force_close(None)

    def set_protocol(self, protocol: Any) -> None:
        self._protocol = protocol
        self._protocol_connected = True

    def get_protocol(self) -> Any:
        return self._protocol

    def is_closing(self) -> bool:
        return self._closing

    def is_reading(self) -> bool:
        return not self.is_closing() and not self._paused

    def pause_reading(self) -> None:
        if not self.is_reading():
            return
        self._paused = True
        self._reader_registered = False

    def resume_reading(self) -> None:
        if self._closing or not self._paused:
            return
        self._paused = False
        self._add_reader()

    def close(self) -> None:
        if self._closing:
            return
        self._closing = True
        self._reader_registered = False
        if not self._buffer:
            self._conn_lost += 1
            self._writer_registered = False
            self._schedule_connection_lost(None)

    def _schedule_connection_lost(self, exc: BaseException | None) -> None:
        if self._fake_loop.is_closed():  # only reachable from a destructor after the case ended
            return
        self._fake_loop.call_soon(self._call_connection_lost, exc)

    def _fatal_error(self, exc: BaseException, message: str = "Fatal error on transport") -> None:
        if not isinstance(exc, OSError):
            self._fake_loop.call_exception_handler(
                {"message": message, "exception": exc, "transport": self, "protocol": self._protocol}
            )
        self._force_close(exc)

    def _force_close(self, exc: BaseException | None) -> None:
        if self._conn_lost:
            return
        if self._buffer:
            self._buffer.clear()
            self._buffer_cleared()
            self._writer_registered = False
        if not self._closing:
            self._closing = True
            self._reader_registered = False
        self._conn_lost += 1
        self._schedule_connection_lost(exc)

    def _buffer_cleared(self) -> None:
        pass

    def _call_connection_lost(self, exc: BaseException | None) -> None:
        try:
            if self._protocol_connected:
                self.connection_lost_called = True
                self.connection_lost_exc = exc
                self.events.append(("connection_lost", exc))
                self._protocol.connection_lost(exc)
        finally:
            if self._sock is not None:
                self._sock.close()
            self._sock = None
            self._protocol = None
            self._loop = None

    def _add_reader(self) -> None:
        if not self.is_reading():
            return
        self._reader_registered = True
        self._reader_added()

    def _reader_added(self) -> None:
        pass

    # -- harness
    def wants_write(self) -> bool:
        """a write-ready callback is registered with the (fake) selector"""
        return self._writer_registered and not self._conn_lost

    def lose_connection(self, exc: BaseException | None) -> None:
        """a fatal socket error (e.g. ECONNRESET seen by recv/send) — or `abort()` when exc is None"""
        if self.connection_lost_called:
            return  # the fd is gone: no further socket event can reach a real transport
        if exc is None:
            self._force_close(None)
        else:
            self._fatal_error(exc)


class FakeAsyncioTransport(_FakeBase, asyncio.Transport):
    """Plays `_SelectorSocketTransport`.

    kernel_capacity: size of the fake kernel send pipe in bytes (None: unbounded, i.e. writes never buffer).
    max_send: largest number of bytes one kernel `send` accepts (None: whatever fits).
    max_recv: largest number of bytes one `recv_into` delivers (None: whatever fits the protocol's buffer).
    call_connection_made: schedule `protocol.connection_made(self)` with call_soon like the real transport
        (False: call it synchronously in the constructor — convenient for harnesses that build everything in one step).
    """

    def __init__(
        self,
        loop: asyncio.AbstractEventLoop,
        protocol: Any,
        *,
        kernel_capacity: int | None = 0,
        max_send: int | None = None,
        max_recv: int | None = None,
        sock: FakeKernelSocket | None = None,
        extra: dict | None = None,
        call_connection_made: bool = False,
        writelines_pauses: bool = True,
    ) -> None:
        super().__init__(loop, sock or FakeKernelSocket(), protocol, extra)
        self._eof = False
        self.kernel_capacity = kernel_capacity
        self.max_send = max_send
        self.max_recv = max_recv
        self.writelines_pauses = writelines_pauses
        self.kernel = bytearray()  # handed to the OS, not yet read by the peer
        self.wire = bytearray()  # every byte ever handed to the OS, in order
        self.peer_received = bytearray()
        self.bytes_accepted = 0  # bytes taken by write()/writelines() (not dropped)
        self.write_log: list[dict] = []  # one entry per write()/writelines() call
        self.inbox = bytearray()  # bytes the peer sent that the transport has not yet read
        self._peer_eof = False
        self._eof_delivered = False
        self.eof_sent = False
        if call_connection_made:
            loop.call_soon(self._protocol.connection_made, self)
            loop.call_soon(self._add_reader)
        else:
            self._protocol.connection_made(self)
            self._add_reader()

    # ---- the "socket"
    def _sock_send(self, data: Any) -> int:
        if self.send_error is not None:
            exc, self.send_error = self.send_error, None
            raise exc
        n = len(data)
        if self.kernel_capacity is not None:
            n = min(n, self.kernel_capacity - len(self.kernel))
        if self.max_send is not None:
            n = min(n, self.max_send)
        if n <= 0:
            raise BlockingIOError(_errno.EAGAIN, "Resource temporarily unavailable")
        chunk = bytes(memoryview(data)[:n])
        self.kernel += chunk
        self.wire += chunk
        return n

    @property
    def bytes_handed(self) -> int:
        """total number of bytes handed to the OS so far"""
        return len(self.wire)

    def kernel_free(self) -> int | None:
        return None if self.kernel_capacity is None else self.kernel_capacity - len(self.kernel)

    # ---- asyncio.WriteTransport
    def get_write_buffer_size(self) -> int:
        return sum(map(len, self._buffer))

    def write(self, data: Any) -> None:
        if not isinstance(data, (bytes, bytearray, memoryview)):
            raise TypeError(f"data argument must be a bytes-like object, not {type(data).__name__!r}")
        if self._eof:
            raise RuntimeError("Cannot call write() after write_eof()")
        if not data:
            return
        entry = {"start": self.bytes_accepted, "len": len(data), "dropped": False, "paused_after": False, "resume_count": self.resume_count}
        self.write_log.append(entry)
        if self._conn_lost:
            self._conn_lost += 1
            entry["dropped"] = True
            return
        self.bytes_accepted += len(data)
        if not self._buffer:
            try:
                n = self._sock_send(data)
            except (BlockingIOError, InterruptedError):
                pass
            except BaseException as exc:  # noqa: BLE001
                self._fatal_error(exc, "Fatal write error on socket transport")
                return
            else:
                data = memoryview(data)[n:]
                if not data:
                    return
            self._writer_registered = True
        self._buffer.append(bytes(data))
        self._maybe_pause_protocol()
        entry["paused_after"] = self._protocol_paused

    def writelines(self, list_of_data: Any) -> None:
        if self._eof:
            raise RuntimeError("Cannot call writelines() after write_eof()")
        chunks = [bytes(d) for d in list_of_data]
        if not chunks:
            return
        total = sum(map(len, chunks))
        if not total:
            return
        entry = {"start": self.bytes_accepted, "len": total, "dropped": False, "paused_after": False, "resume_count": self.resume_count}
        self.write_log.append(entry)
        if self._conn_lost:
            # the 3.12 selector transport misbehaves here (AttributeError on the detached loop); dropped like write() does
            self._conn_lost += 1
            entry["dropped"] = True
            return
        self.bytes_accepted += total
        self._buffer.extend(c for c in chunks if c)
        if not self._buffer:
            return
        self._write_ready()
        if self._buffer:
            self._writer_registered = True
            if self.writelines_pauses:
                self._maybe_pause_protocol()
        entry["paused_after"] = self._protocol_paused

    def _write_ready(self) -> None:
        """`_SelectorSocketTransport._write_sendmsg`"""
        if not self._buffer:
            raise HarnessError("_write_ready() with an empty buffer")
        if self._conn_lost:
            return
        try:
            nbytes = 0
            # sendmsg over the buffer list: the kernel takes as much as fits, across chunk boundaries
            for chunk in list(self._buffer):
                try:
                    n = self._sock_send(chunk)
                except BlockingIOError:
                    if nbytes == 0:
                        raise
                    break
                nbytes += n
                if n < len(chunk) or self.max_send is not None:
                    break
            self._adjust_leftover_buffer(nbytes)
        except (BlockingIOError, InterruptedError):
            pass
        except BaseException as exc:  # noqa: BLE001
            self._writer_registered = False
            self._buffer.clear()
            self._fatal_error(exc, "Fatal write error on socket transport")
        else:
            self._maybe_resume_protocol()  # May append to buffer.
            if not self._buffer:
                self._writer_registered = False
                if self._closing:
                    self._call_connection_lost(None)
                elif self._eof:
                    self._shutdown_wr()

    def _adjust_leftover_buffer(self, nbytes: int) -> None:
        buffer = self._buffer
        while nbytes:
            b = buffer.popleft()
            if len(b) <= nbytes:
                nbytes -= len(b)
            else:
                buffer.appendleft(b[nbytes:])
                break

    def _shutdown_wr(self) -> None:
        self.eof_sent = True
        if self._sock is not None:
            self._sock.shut_wr = True

    def write_eof(self) -> None:
        if self._closing or self._eof:
            return
        self._eof = True
        if not self._buffer:
            self._shutdown_wr()

    def can_write_eof(self) -> bool:
        return True

    def close(self) -> None:
        super().close()

    # ---- harness: write side
    def pump(self) -> int:
        """the selector reports the socket writable: run the write-ready callback if one is registered.
        Returns the number of bytes moved from the user-space buffer to the kernel."""
        if not self._writer_registered or not self._buffer or self._conn_lost:
            return 0
        before = len(self.wire)
        self._write_ready()
        return len(self.wire) - before

    def peer_read(self, k: int | None = None) -> bytes:
        """the peer application reads up to k bytes (None: everything in flight)"""
        if k is None or k > len(self.kernel):
            k = len(self.kernel)
        data = bytes(self.kernel[:k])
        del self.kernel[:k]
        self.peer_received += data
        return data

    def drain(self, k: int | None = None) -> int:
        """peer reads k bytes, then the loop sees the socket writable"""
        self.peer_read(k)
        return self.pump()

    # ---- harness: read side (`_read_ready__get_buffer` / `_read_ready__data_received` / `_read_ready__on_eof`)
    def feed(self, data: bytes) -> None:
        """bytes arrive from the peer; delivered now if the transport is reading, else when reading resumes"""
        if self._peer_eof:
            raise HarnessError("feed() after feed_eof()")
        self.inbox += data
        if self._reader_registered:
            self._read_ready()

    def feed_eof(self) -> None:
        self._peer_eof = True
        if self._reader_registered and not self.inbox:
            self._read_ready()

    def _reader_added(self) -> None:
        if self.inbox or (self._peer_eof and not self._eof_delivered):
            self._fake_loop.call_soon(self._read_ready_if_registered)

    def _read_ready_if_registered(self) -> None:
        if self._reader_registered:
            self._read_ready()

    def _read_ready(self) -> None:
        if self._conn_lost:
            return
        if not self.inbox:
            if self._peer_eof and not self._eof_delivered:
                self._eof_delivered = True
                self._read_ready_on_eof()
            return
        if isinstance(self._protocol, asyncio.BufferedProtocol):
            try:
                buf = self._protocol.get_buffer(-1)
                if not len(buf):
                    raise RuntimeError("get_buffer() returned an empty buffer")
            except BaseException as exc:  # noqa: BLE001
                self._fatal_error(exc, "Fatal error: protocol.get_buffer() call failed.")
                return
            view = memoryview(buf).cast("B")
            n = min(len(view), len(self.inbox))
            if self.max_recv is not None:
                n = min(n, self.max_recv)
            view[:n] = self.inbox[:n]
            del self.inbox[:n]
            try:
                self._protocol.buffer_updated(n)
            except BaseException as exc:  # noqa: BLE001
                self._fatal_error(exc, "Fatal error: protocol.buffer_updated() call failed.")
                return
        else:
            n = min(self.max_size, len(self.inbox))
            if self.max_recv is not None:
                n = min(n, self.max_recv)
            data = bytes(self.inbox[:n])
            del self.inbox[:n]
            try:
                self._protocol.data_received(data)
            except BaseException as exc:  # noqa: BLE001
                self._fatal_error(exc, "Fatal error: protocol.data_received() call failed.")
                return
        # level-triggered: still readable -> another callback in the next loop iteration
        if self._reader_registered and (self.inbox or (self._peer_eof and not self._eof_delivered)):
            self._fake_loop.call_soon(self._read_ready_if_registered)

    def _read_ready_on_eof(self) -> None:
        try:
            keep_open = self._protocol.eof_received()
        except BaseException as exc:  # noqa: BLE001
            self._fatal_error(exc, "Fatal error: protocol.eof_received() call failed.")
            return
        if keep_open:
            self._reader_registered = False
        else:
            self.close()


class FakeAsyncioDatagramTransport(_FakeBase, asyncio.DatagramTransport):
    """Plays `_SelectorDatagramTransport`.

    address: the remote address of a connected UDP socket, or None for an unconnected (listener) socket.
    kernel_slots: how many datagrams the fake kernel queue holds before `send` raises BlockingIOError (None: unbounded).
    """

    def __init__(
        self,
        loop: asyncio.AbstractEventLoop,
        protocol: Any,
        *,
        address: tuple | None = None,
        kernel_slots: int | None = 0,
        sock: FakeKernelSocket | None = None,
        extra: dict | None = None,
        call_connection_made: bool = False,
    ) -> None:
        if sock is None:
            sock = FakeKernelSocket(peername=address, type=_socket.SOCK_DGRAM)
        super().__init__(loop, sock, protocol, extra)
        self._address = address
        self._buffer_size = 0
        self.kernel_slots = kernel_slots
        self.kernel: collections.deque[tuple[bytes, Any]] = collections.deque()
        self.wire: list[tuple[bytes, Any]] = []
        self.peer_received: list[tuple[bytes, Any]] = []
        self.send_log: list[dict] = []
        self._buffer_entries: collections.deque[dict] = collections.deque()  # send_log entries of the buffered datagrams, same order
        self.datagram_error: OSError | None = None  # raised by the next kernel send as a non-fatal OSError
        if call_connection_made:
            loop.call_soon(self._protocol.connection_made, self)
            loop.call_soon(self._add_reader)
        else:
            self._protocol.connection_made(self)
            self._add_reader()

    def _sock_send(self, data: bytes, addr: Any) -> None:
        if self.send_error is not None:
            exc, self.send_error = self.send_error, None
            raise exc
        if self.datagram_error is not None:
            exc2, self.datagram_error = self.datagram_error, None
            raise exc2
        if self.kernel_slots is not None and len(self.kernel) >= self.kernel_slots:
            raise BlockingIOError(_errno.EAGAIN, "Resource temporarily unavailable")
        self.kernel.append((bytes(data), addr))
        self.wire.append((bytes(data), addr))

    def get_write_buffer_size(self) -> int:
        return self._buffer_size

    def _buffer_cleared(self) -> None:
        self._buffer_size = 0

    def sendto(self, data: Any, addr: Any = None) -> None:
        if not isinstance(data, (bytes, bytearray, memoryview)):
            raise TypeError(f"data argument must be a bytes-like object, not {type(data).__name__!r}")
        if not data:
            return
        if self._address:
            if addr not in (None, self._address):
                raise ValueError(f"Invalid address: must be None or {self._address}")
            addr = self._address
        entry = {
            "index": len(self.send_log),
            "len": len(data),
            "dropped": False,
            "error": None,
            "sent_now": False,
            "paused_after": False,
            "resume_count": self.resume_count,
        }
        self.send_log.append(entry)
        if self._conn_lost:
            # (the real transport only short-circuits for connected sockets; an unconnected one would touch the detached
            # socket/loop and raise AttributeError out of asyncio — modelled as the same silent drop)
            self._conn_lost += 1
            entry["dropped"] = True
            return
        if not self._buffer:
            try:
                self._sock_send(bytes(data), addr)
                entry["sent_now"] = True
                return
            except (BlockingIOError, InterruptedError):
                self._writer_registered = True
            except OSError as exc:
                entry["dropped"] = True
                entry["error"] = exc
                self._protocol.error_received(exc)
                return
            except BaseException as exc:  # noqa: BLE001
                self._fatal_error(exc, "Fatal write error on datagram transport")
                return
        self._buffer.append((bytes(data), addr))
        self._buffer_entries.append(entry)
        self._buffer_size += len(data)
        self._maybe_pause_protocol()
        entry["paused_after"] = self._protocol_paused

    def _sendto_ready(self) -> None:
        while self._buffer:
            data, addr = self._buffer.popleft()
            entry = self._buffer_entries.popleft() if self._buffer_entries else None
            self._buffer_size -= len(data)
            try:
                self._sock_send(data, addr)
            except (BlockingIOError, InterruptedError):
                self._buffer.appendleft((data, addr))
                if entry is not None:
                    self._buffer_entries.appendleft(entry)
                self._buffer_size += len(data)
                break
            except OSError as exc:
                if entry is not None:
                    # the datagram is gone (asyncio reports it through error_received() and goes on)
                    entry["dropped"] = True
                    entry["error"] = exc
                self._protocol.error_received(exc)
                return
            except BaseException as exc:  # noqa: BLE001
                self._fatal_error(exc, "Fatal write error on datagram transport")
                return
        self._maybe_resume_protocol()  # May append to buffer.
        if not self._buffer:
            self._writer_registered = False
            if self._closing:
                self._call_connection_lost(None)

    # ---- harness
    def pump(self) -> int:
        """the selector reports the socket writable; returns the number of datagrams handed to the kernel.
        (`_sendto_ready` can leave the writer registered with an empty buffer after a non-fatal send error; the next
        writable event then finishes a pending close, exactly as in asyncio)"""
        if not self._writer_registered or self._conn_lost:
            return 0
        before = len(self.wire)
        self._sendto_ready()
        return len(self.wire) - before

    def peer_read(self, k: int | None = None) -> list[tuple[bytes, Any]]:
        """the network/peer takes up to k datagrams out of the kernel queue (None: all)"""
        out = []
        while self.kernel and (k is None or len(out) < k):
            out.append(self.kernel.popleft())
        self.peer_received.extend(out)
        return out

    def drain(self, k: int | None = None) -> int:
        self.peer_read(k)
        return self.pump()

    def feed(self, data: bytes, addr: Any = None) -> None:
        """a datagram arrives (`_read_ready` -> `datagram_received`); dropped if the transport is not reading"""
        if self._conn_lost or not self._reader_registered:
            return
        self._protocol.datagram_received(data, addr if addr is not None else self._address)

    def feed_error(self, exc: OSError) -> None:
        """recvfrom raised a non-fatal OSError (e.g. ICMP port unreachable -> ECONNREFUSED)"""
        if self._conn_lost or not self._reader_registered:
            return
        self._protocol.error_received(exc)
