"""Reference frame-by-frame decoder for the framed serializer kinds of pbt/zoo.py (DESIGN C02/C07 oracle).

The reference never looks at how the code under test scans a stream: it splits the *whole* byte stream by the wire
format's definition (separator / fixed size / bracket balance / length prefix) and then calls the serializer's
one-shot ``deserialize`` on every frame (plus the converter, when the spec has one).

``decode(entry, stream)`` -> ``(frames, tail)`` where ``frames`` is a list of :class:`RefFrame` covering
``stream[:tail]`` contiguously and ``stream[tail:]`` is an incomplete last frame (empty for the streams the checks
build).  One splitter per framed kind: line, json lines, json raw, autosep, base64, fixed/struct/namedtuple, hfile,
lenprefixed.
"""

from __future__ import annotations

import dataclasses
import string
from typing import Any

from easynetwork.exceptions import DeserializeError, PacketConversionError

from . import zoo
from .core import HarnessError

# ----------------------------------------------------------------------------------------------


@dataclasses.dataclass
class RefFrame:
    start: int
    end: int  # exclusive; includes the terminator
    payload_len: int  # without the terminator
    seplen: int  # terminator length (0 for self-delimiting formats)
    output: tuple  # ("pkt", value) | ("err",)

    @property
    def size(self) -> int:
        return self.end - self.start


def framing_spec(spec: dict) -> dict:
    s = spec
    while s["kind"] == "stapled":
        s = s["recv"]
    return s


def ref_output(entry: zoo.Entry, data: bytes) -> tuple:
    """one-shot decode of one frame: what the application must see for it"""
    try:
        dto = entry.serializer.deserialize(data)
    except DeserializeError:
        return ("err",)
    if entry.converter is not None:
        try:
            return ("pkt", entry.converter.create_from_dto_packet(dto))
        except PacketConversionError:
            return ("err",)
    return ("pkt", dto)


# ----------------------------------------------------------------------------------------------
# splitters: each returns list of (start, end, payload_len, seplen, bytes given to the one-shot deserialize)


def _split_separator(stream: bytes, sep: bytes, *, keep_sep_for_decode: bool) -> tuple[list[tuple], int]:
    out = []
    pos = 0
    n = len(sep)
    while True:
        idx = stream.find(sep, pos)
        if idx < 0:
            return out, pos
        end = idx + n
        out.append((pos, end, idx - pos, n, stream[pos:end] if keep_sep_for_decode else stream[pos:idx]))
        pos = end


def split_line(spec: dict, stream: bytes) -> tuple[list[tuple], int]:
    return _split_separator(stream, zoo.NEWLINES[spec["newline"]], keep_sep_for_decode=bool(spec.get("keep_end")))


def split_json_lines(spec: dict, stream: bytes) -> tuple[list[tuple], int]:
    return _split_separator(stream, b"\n", keep_sep_for_decode=True)


def split_autosep(spec: dict, stream: bytes) -> tuple[list[tuple], int]:
    return _split_separator(stream, spec["separator"], keep_sep_for_decode=False)


def split_base64(spec: dict, stream: bytes) -> tuple[list[tuple], int]:
    return _split_separator(stream, spec["separator"], keep_sep_for_decode=False)


def split_fixed(size: int, stream: bytes) -> tuple[list[tuple], int]:
    out = []
    pos = 0
    while pos + size <= len(stream):
        out.append((pos, pos + size, size, 0, stream[pos : pos + size]))
        pos += size
    return out, pos


def split_hfile(spec: dict, stream: bytes) -> tuple[list[tuple], int]:
    """zoo.HFile record: 2-byte big-endian length + payload"""
    out = []
    pos = 0
    while pos + 2 <= len(stream):
        n = int.from_bytes(stream[pos : pos + 2], "big")
        end = pos + 2 + n
        if end > len(stream):
            break
        out.append((pos, end, end - pos, 0, stream[pos:end]))
        pos = end
    return out, pos


def split_lenprefixed(spec: dict, stream: bytes) -> tuple[list[tuple], int]:
    """zoo.HLenPrefixed: b"<decimal len>\\n" + payload + 1 trailer byte.  A header line that is not a decimal number
    within the serializer's limit is a frame of its own (there is no length to skip)."""
    limit = spec.get("limit", zoo.DEFAULT_LIMIT)
    out = []
    pos = 0
    while True:
        nl = stream.find(b"\n", pos)
        if nl < 0:
            return out, pos
        header = stream[pos:nl]
        if header.isdigit() and int(header) <= limit:
            end = nl + 1 + int(header) + 1
            if end > len(stream):
                return out, pos
        else:
            end = nl + 1
        out.append((pos, end, end - pos, 0, stream[pos:end]))
        pos = end


_WS = b" \t\n\r"
_JSON_PLAIN = frozenset(bytes(string.digits + string.ascii_letters + string.punctuation, "ascii"))


def split_json_raw(spec: dict, stream: bytes) -> tuple[list[tuple], int]:
    """Concatenated JSON documents: objects, arrays and strings are self-delimiting (bracket balance / closing quote);
    plain values (numbers, literals) end at the first whitespace.  White space around a document belongs to it."""
    out = []
    pos = 0
    n = len(stream)
    while True:
        i = pos
        while i < n and stream[i] in _WS:
            i += 1
        if i >= n:
            return out, pos
        c = stream[i]
        end = -1
        if c in b'{["':
            depth = 0
            in_str = False
            esc = False
            j = i
            while j < n:
                b = stream[j]
                if in_str:
                    if esc:
                        esc = False
                    elif b == 0x5C:
                        esc = True
                    elif b == 0x22:
                        in_str = False
                        if depth == 0:
                            end = j + 1
                            break
                elif b == 0x22:
                    in_str = True
                elif b in b"{[":
                    depth += 1
                elif b in b"}]":
                    depth -= 1
                    if depth <= 0:
                        end = j + 1
                        break
                j += 1
            if end < 0:
                return out, pos
            seplen = 0
        elif c in b"]}" or c not in _JSON_PLAIN:
            # a stray closing bracket, or a byte that cannot be part of any JSON text outside a string (control character,
            # non-ASCII), where a document should start: a one-byte malformed document (it cannot be shorter, and taking
            # more would eat into whatever follows)
            end = i + 1
            seplen = 0
        else:
            j = i
            while j < n and stream[j] in _JSON_PLAIN:
                j += 1
            if j >= n:
                return out, pos
            end = j
            seplen = 0
        # trailing white space is consumed with the document
        k = end
        while k < n and stream[k] in _WS:
            k += 1
        # the white space after the document plays the part of the terminator (needed by plain values, optional otherwise)
        seplen = k - end
        out.append((pos, k, k - pos - seplen, seplen, stream[pos:k]))
        pos = k


# ----------------------------------------------------------------------------------------------


def split(entry: zoo.Entry, stream: bytes) -> tuple[list[tuple], int]:
    spec = framing_spec(entry.spec)
    k = spec["kind"]
    if k == "line":
        return split_line(spec, stream)
    if k == "json":
        return split_json_lines(spec, stream) if spec.get("use_lines", True) else split_json_raw(spec, stream)
    if k == "autosep":
        return split_autosep(spec, stream)
    if k == "base64":
        return split_base64(spec, stream)
    if k == "fixed":
        return split_fixed(spec["size"], stream)
    if k in ("struct", "namedtuple"):
        return split_fixed(entry.serializer.struct.size, stream)
    if k == "hfile":
        return split_hfile(spec, stream)
    if k == "lenprefixed":
        return split_lenprefixed(spec, stream)
    raise HarnessError(f"refdecode: no frame splitter for serializer kind {k!r}")


def decode(entry: zoo.Entry, stream: bytes) -> tuple[list[RefFrame], int]:
    raw, tail = split(entry, bytes(stream))
    frames = [RefFrame(s, e, plen, seplen, ref_output(entry, data)) for (s, e, plen, seplen, data) in raw]
    pos = 0
    for f in frames:
        if f.start != pos or f.end <= f.start:
            raise HarnessError("refdecode: frames are not contiguous")
        pos = f.end
    if pos != tail:
        raise HarnessError("refdecode: tail does not follow the last frame")
    return frames, tail


# ----------------------------------------------------------------------------------------------
# limit classes (DESIGN C07 "Definitions")

SEPARATOR_KINDS = ("line", "jsonlines", "autosep", "base64")


def framing_kind(spec: dict) -> str:
    s = framing_spec(spec)
    if s["kind"] == "json":
        return "jsonlines" if s.get("use_lines", True) else "jsonraw"
    return s["kind"]


def size_limit(spec: dict) -> int | None:
    """the configured receive-size limit of the framing serializer; None when the format has no size limit
    (fixed-size formats; zoo.HLenPrefixed's `limit` bounds the announced length, a larger one is a *bad header*)"""
    s = framing_spec(spec)
    if framing_kind(spec) in SEPARATOR_KINDS + ("jsonraw", "hfile"):
        return s.get("limit", zoo.DEFAULT_LIMIT)
    return None


def classify(spec: dict, frame: RefFrame, limit: int | None, read_size: int) -> str:
    """'safe' | 'band' | 'over' for one complete frame (T = payload + terminator):
    separator-framed: safe iff T <= limit - seplen - 1, over iff payload > limit + seplen;
    raw JSON / file-based: safe iff T <= limit - 1, over iff T > limit + read_size (largest single read of the run)."""
    if limit is None:
        return "safe"
    kind = framing_kind(spec)
    if kind in SEPARATOR_KINDS:
        if frame.size <= limit - frame.seplen - 1:
            return "safe"
        if frame.payload_len > limit + frame.seplen:
            return "over"
        return "band"
    if frame.size <= limit - 1:
        return "safe"
    # raw JSON: white space after the document is not measured when it arrives together with the document's end
    unpadded = frame.payload_len if kind == "jsonraw" else frame.size
    if unpadded > limit + read_size:
        return "over"
    return "band"


def same_output(out: tuple, ref: tuple) -> bool:
    """does a driver output record equal the reference output of a frame?  A malformed frame must surface as a parse
    error that is not a size rejection."""
    if ref[0] == "pkt":
        return out[0] == "pkt" and zoo.strict_eq(out[1], ref[1])
    return out[0] == "err" and out[1] != "LimitOverrunError"


def raw_bytes_of_packet(entry: zoo.Entry, value: Any) -> bytes | None:
    """for serializers whose packets are the raw payload (line, harness autosep): the payload bytes of a packet"""
    if isinstance(value, zoo.Wrapped):
        value = value.dto
    kind = framing_kind(entry.spec)
    if kind == "line" and isinstance(value, str):
        try:
            return value.encode(framing_spec(entry.spec).get("encoding", "ascii"))
        except UnicodeError:
            return None
    if kind == "autosep" and isinstance(value, (bytes, bytearray)):
        return bytes(value)
    return None
