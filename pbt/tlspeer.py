"""H6 — an independent TLS peer: stdlib ssl.SSLObject over two MemoryBIOs, pumped by the harness.

The peer never touches the code under test; the harness moves ciphertext between the peer's BIOs and the
transport under test in generated fragments, records every ciphertext byte in both directions and can cut the
stream at any byte offset.
"""

from __future__ import annotations

import hashlib
import os
import ssl

from .core import VERIF_ROOT, HarnessError

CERTS = os.path.join(VERIF_ROOT, "certs")


def _pin(ctx: ssl.SSLContext, version: str) -> None:
    v = {"1.2": ssl.TLSVersion.TLSv1_2, "1.3": ssl.TLSVersion.TLSv1_3}[version]
    ctx.minimum_version = v
    ctx.maximum_version = v


def server_context(version: str = "1.3") -> ssl.SSLContext:
    ctx = ssl.SSLContext(ssl.PROTOCOL_TLS_SERVER)
    ctx.load_cert_chain(os.path.join(CERTS, "server.pem"))
    _pin(ctx, version)
    return ctx


def client_context(version: str = "1.3") -> ssl.SSLContext:
    ctx = ssl.SSLContext(ssl.PROTOCOL_TLS_CLIENT)
    ctx.load_verify_locations(os.path.join(CERTS, "ca.pem"))
    ctx.check_hostname = True
    _pin(ctx, version)
    return ctx


def payload(tag: str, index: int, size: int) -> bytes:
    """deterministic high-entropy plaintext (so it can be searched for in the ciphertext)"""
    out = bytearray()
    counter = 0
    while len(out) < size:
        out += hashlib.sha256(f"{tag}:{index}:{counter}".encode()).digest()
        counter += 1
    return bytes(out[:size])


class TLSPeer:
    """role = 'server' or 'client' (the peer's own role)"""

    def __init__(self, role: str, version: str = "1.3") -> None:
        self.role = role
        self.incoming = ssl.MemoryBIO()
        self.outgoing = ssl.MemoryBIO()
        if role == "server":
            self.obj = server_context(version).wrap_bio(self.incoming, self.outgoing, server_side=True)
        elif role == "client":
            self.obj = client_context(version).wrap_bio(self.incoming, self.outgoing, server_side=False, server_hostname="localhost")
        else:
            raise HarnessError(role)
        self.handshaken = False
        self.plain_in = bytearray()
        self.to_write: list[bytes] = []
        self.zero_return = False  # latched: the other side sent close_notify
        self.error: BaseException | None = None
        self.want_close = False
        self.close_sent = False
        self.eof_fed = False

    # -- ciphertext in
    def feed(self, data: bytes) -> None:
        if data:
            self.incoming.write(data)

    def feed_eof(self) -> None:
        self.eof_fed = True
        self.incoming.write_eof()

    def write(self, data: bytes) -> None:
        self.to_write.append(data)

    def close(self) -> None:
        """send close_notify once everything queued has been written"""
        self.want_close = True

    # -- drive the state machine as far as possible; returns ciphertext to put on the wire
    def pump(self) -> bytes:
        try:
            if self.error is None:
                self._pump()
        except ssl.SSLError as exc:
            self.error = exc
        except OSError as exc:
            self.error = exc
        return self.outgoing.read() if self.outgoing.pending else b""

    def _pump(self) -> None:
        if not self.handshaken:
            try:
                self.obj.do_handshake()
            except ssl.SSLWantReadError:
                return
            self.handshaken = True
        # read everything that is available
        while not self.zero_return:
            try:
                data = self.obj.read(65536)
            except ssl.SSLWantReadError:
                break
            except ssl.SSLZeroReturnError:
                self.zero_return = True
                break
            if not data:
                self.zero_return = True
                break
            self.plain_in += data
        # write what is queued
        while self.to_write and not self.close_sent:
            data = self.to_write[0]
            try:
                n = self.obj.write(data)
            except ssl.SSLWantReadError:
                return
            if n < len(data):
                self.to_write[0] = data[n:]
            else:
                self.to_write.pop(0)
        if self.want_close and not self.to_write and not self.close_sent:
            try:
                self.obj.unwrap()
            except ssl.SSLWantReadError:
                # our close_notify is written; waiting for the other side's
                self.close_sent = True
                return
            except ssl.SSLError:
                self.close_sent = True
                raise
            self.close_sent = True
        elif self.close_sent and not self.zero_return:
            try:
                self.obj.unwrap()
            except ssl.SSLWantReadError:
                return
            except ssl.SSLError:
                return
            self.zero_return = True


def clean_session_transcript(version: str, sut_role: str, app_records: list[bytes], *, peer_closes: bool = True) -> dict:
    """Run a complete clean session between two stdlib peers and return the ciphertext stream each side emitted,
    with the offsets of the interesting boundaries.  Used by C09 to know where records start/end."""
    a = TLSPeer("client" if sut_role == "client" else "server", version)  # stands for the SUT side
    b = TLSPeer("server" if sut_role == "client" else "client", version)  # the peer
    wire_ab = bytearray()
    wire_ba = bytearray()
    marks: list[tuple[str, int]] = []

    def shuttle() -> None:
        for _ in range(50):
            x = a.pump()
            if x:
                wire_ab.extend(x)
                b.feed(x)
            y = b.pump()
            if y:
                wire_ba.extend(y)
                a.feed(y)
            if not x and not y:
                break

    shuttle()
    if not (a.handshaken and b.handshaken):
        raise HarnessError(f"transcript handshake failed: {a.error!r} {b.error!r}")
    marks.append(("handshake_end", len(wire_ba)))
    for i, rec in enumerate(app_records):
        b.write(rec)
        shuttle()
        marks.append((f"record_{i}_end", len(wire_ba)))
    if peer_closes:
        b.close()
        shuttle()
        marks.append(("close_notify_end", len(wire_ba)))
    return {"to_sut": bytes(wire_ba), "from_sut": bytes(wire_ab), "marks": marks, "plain_seen_by_sut_side": bytes(a.plain_in)}
