"""Coverage-guided secondary engine (thorough tier): libFuzzer/atheris drives the *Hypothesis strategy* of an existing
layer through `test.hypothesis.fuzz_one_input`, with the library under test instrumented for coverage feedback.

The fuzz target is exactly the layer's `run(case)` with its oracle; the generator is exactly the layer's strategy (so
every input is as sound as in the Hypothesis layers) - only the search is different: libFuzzer mutates the byte string
Hypothesis parses its choices from and keeps mutants that reach new code in `easynetwork`.

Subprocess (libFuzzer ends the process with os._exit, so it never shares a process with the runner):

    python -m pbt.covfuzz --check C02 --layer frames --runs N --seed S --max-len L --time T --out DIR

DIR/partial.json (core.Stats partial: executions, classes, distinct non-trivial digests, samples, known findings seen) is
rewritten every 2 s; on an unknown violation DIR/violation.json holds the case before the exception is re-raised.

Parent side: `cov_layer(...)` builds a Layer "<target>-cov" whose single case per thorough shard is one campaign; the
campaign's executions are added to the evidence counters, and a reported violation is re-run in-process on the target
layer (uninstrumented) and only believed - and saved as an ordinary replay file - if it reproduces.
"""

from __future__ import annotations

import argparse
import json
import os
import shutil
import subprocess
import sys
import tempfile
import time
from typing import Any


def available() -> bool:
    try:
        import importlib.util

        return importlib.util.find_spec("atheris") is not None
    except Exception:  # noqa: BLE001
        return False


def shard_index() -> int:
    argv = sys.argv
    if "--shard" in argv:
        try:
            return int(argv[argv.index("--shard") + 1].split("/")[0])
        except (ValueError, IndexError):
            return 0
    return 0


# ----------------------------------------------------------------------------------------------
# parent side


def cov_layer(check_id: str, target: Any, *, runs: int, max_len: int = 4096, time_s: int = 150, shards: int = 16) -> Any:
    """Layer "<target.name>-cov": thorough tier only, one campaign per shard."""
    from hypothesis import strategies as st

    from . import core

    name = f"{target.name}-cov"

    def strategy(tier: str) -> Any:
        seed = int(os.environ.get("VERIF_SEED") or "1")
        return st.just({"check": check_id, "target": target.name, "runs": runs, "max_len": max_len, "time_s": time_s, "seed": seed * 1000 + shard_index()})

    cache: dict[str, Any] = {}

    def run(case: dict) -> core.Outcome:
        if not available():
            return core.Outcome(nontrivial=False, classes=("atheris-not-importable-skipped",))
        key = core.case_digest(case)
        if key not in cache:
            try:
                cache[key] = ("ok", campaign(case))
            except (core.Violation, core.Inconclusive, core.HarnessError) as exc:
                cache[key] = ("exc", exc)
        kind, val = cache[key]
        if kind == "exc":
            raise val
        return val

    def campaign(case: dict) -> core.Outcome:
        out = tempfile.mkdtemp(prefix=f"{check_id.lower()}-cov-")
        try:
            cmd = [
                sys.executable, "-X", "faulthandler", "-m", "pbt.covfuzz",
                "--check", check_id, "--layer", case["target"], "--runs", str(case["runs"]), "--seed", str(case["seed"]),
                "--max-len", str(case["max_len"]), "--time", str(case["time_s"]), "--out", out,
            ]  # fmt: skip
            try:
                p = subprocess.run(cmd, cwd=core.VERIF_ROOT, capture_output=True, text=True, timeout=case["time_s"] * 3 + 300)
            except subprocess.TimeoutExpired:
                raise core.Inconclusive(f"coverage-guided campaign exceeded {case['time_s'] * 3 + 300} s") from None
            tail = (p.stdout + p.stderr)[-1500:]
            partial = None
            pp = os.path.join(out, "partial.json")
            if os.path.exists(pp):
                with open(pp) as f:
                    partial = json.load(f)
            violation = None
            vp = os.path.join(out, "violation.json")
            if os.path.exists(vp):
                with open(vp) as f:
                    violation = json.load(f)
            slow = [n for n in os.listdir(out) if n.startswith("timeout-")]
        finally:
            shutil.rmtree(out, ignore_errors=True)
        if violation is not None:
            from . import run as runner

            vcase = dict(core.from_jsonable(violation["case"]), layer=target.name)
            chk = runner.load_check(check_id)
            hits: list[core.Violation] = []
            for _ in range(2):
                try:
                    runner.execute(chk, target, vcase)
                except core.Violation as v:
                    hits.append(v)
            if hits:
                v = hits[0]
                path = core.save_replay(check_id, vcase, v)
                raise core.Violation(v.kind, f"{v.message} [found by the coverage-guided engine, direct replay: {path}]", **v.details)
            raise core.Inconclusive(f"campaign reported {violation['kind']} but it does not reproduce in-process: {violation['message'][:300]}")
        if partial is None or not partial.get("evaluations"):
            raise core.HarnessError(f"coverage-guided campaign produced no statistics (rc={p.returncode}): {tail[-800:]}")
        if slow:
            raise core.Inconclusive(f"libFuzzer reported a slow unit ({slow[0]}); rc={p.returncode}")
        if p.returncode != 0:
            raise core.Inconclusive(f"campaign ended with rc={p.returncode} without a violation file: {tail[-400:]}")
        classes = [f"campaign:{c.split(':', 1)[-1]}" for c in partial["classes"]][:40]
        return core.Outcome(
            nontrivial=len(partial["nontrivial_digests"]) > 0,
            classes=tuple(["campaign-ran"] + classes),
            note=f"coverage-guided campaign: {partial['evaluations']} executions, {len(partial['nontrivial_digests'])} distinct non-trivial, known-findings seen {partial['known_seen']}",
            extra=partial,
        )

    return core.Layer(name, strategy, run, {"quick": 0, "thorough": 1}, shards=shards, case_timeout_s=time_s * 3 + 400)


# ----------------------------------------------------------------------------------------------
# subprocess side


def main() -> int:
    ap = argparse.ArgumentParser()
    ap.add_argument("--check", required=True)
    ap.add_argument("--layer", required=True)
    ap.add_argument("--runs", type=int, required=True)
    ap.add_argument("--seed", type=int, default=1)
    ap.add_argument("--max-len", type=int, default=4096)
    ap.add_argument("--time", type=int, default=150)
    ap.add_argument("--out", required=True)
    args = ap.parse_args()

    import atheris

    with atheris.instrument_imports(include=["easynetwork"]):
        import easynetwork  # noqa: F401

        from pbt import core
        from pbt import run as runner

        check = runner.load_check(args.check)

    if not os.path.realpath(easynetwork.__file__).startswith(core.REPO_SRC + "/"):
        print(f"HARNESS-ERROR easynetwork imported from {easynetwork.__file__}", flush=True)
        return 2

    from hypothesis import HealthCheck, given, settings

    layer = check.layer(args.layer)
    strat = layer.strategy("thorough")
    stats = core.Stats()
    known = core.load_known_findings().get("known", [])
    os.makedirs(args.out, exist_ok=True)
    last_flush = [time.monotonic()]

    def flush() -> None:
        tmp = os.path.join(args.out, "partial.json.tmp")
        with open(tmp, "w") as f:
            json.dump(stats.to_partial(), f)
        os.replace(tmp, os.path.join(args.out, "partial.json"))
        last_flush[0] = time.monotonic()

    @settings(database=None, deadline=None, suppress_health_check=list(HealthCheck))
    @given(strat)
    def test(case: dict) -> None:
        case = dict(case, layer=layer.name)
        try:
            out = runner.execute(check, layer, case)
        except core.Violation as v:
            entry = core.match_known(check.id, v, case, known)
            if entry is not None:
                stats.known_seen[entry["id"]] += 1
                return
            flush()
            with open(os.path.join(args.out, "violation.json"), "w") as f:
                json.dump({"case": core.to_jsonable(case), "kind": v.kind, "message": v.message}, f)
            raise
        stats.record(case, out)
        if time.monotonic() - last_flush[0] > 2.0:
            flush()

    fuzz_one = test.hypothesis.fuzz_one_input

    def one_input(data: bytes) -> None:
        fuzz_one(data)

    corpus_dir = os.path.join(args.out, "corpus")
    os.makedirs(corpus_dir, exist_ok=True)
    # Hypothesis needs a few hundred bytes of choices per case: start from deterministic pseudo-random buffers of
    # several sizes (sha256 counter streams keyed by the seed) instead of libFuzzer's tiny initial inputs
    import hashlib

    for i, size in enumerate([256, 512, 1024, 2048, args.max_len, 384, 768, 1536]):
        buf = bytearray()
        ctr = 0
        while len(buf) < size:
            buf += hashlib.sha256(f"{args.seed}:{i}:{ctr}".encode()).digest()
            ctr += 1
        with open(os.path.join(corpus_dir, f"seed-{i}"), "wb") as f:
            f.write(bytes(buf[: min(size, args.max_len)]))
    argv = [
        sys.argv[0],
        f"-runs={args.runs}",
        f"-seed={args.seed}",
        f"-max_len={args.max_len}",
        f"-max_total_time={args.time}",
        "-len_control=0",
        "-timeout=60",
        "-rss_limit_mb=4096",
        f"-artifact_prefix={args.out}/",
        "-print_final_stats=1",
        "-verbosity=0",
        corpus_dir,
    ]
    flush()
    atheris.Setup(argv, one_input)
    atheris.Fuzz()
    flush()
    return 0


if __name__ == "__main__":
    sys.exit(main())
