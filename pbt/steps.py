"""Crash-point injection for coroutines: drive a coroutine step by step (one step = one resumption by the event
loop), call a hook before each step.  Used to deliver a cancellation at *every* await point of a path that is
first measured by running the real code."""

from __future__ import annotations

import types
from collections.abc import Callable, Coroutine, Generator
from typing import Any


@types.coroutine
def stepped(coro: Coroutine[Any, Any, Any], hook: Callable[[int], None]) -> Generator[Any, Any, Any]:
    """Transparent wrapper: behaves like `await coro`, but calls hook(k) right before the k-th resumption of `coro`
    (k = 0 is the initial start).  If hook(k) calls task.cancel() on the current task, the cancellation is delivered
    at the first suspension point reached during step k (asyncio sets _must_cancel), i.e. "while awaiting the k-th
    await"."""
    it = coro.__await__()
    step = 0
    value: Any = None
    exc: BaseException | None = None
    try:
        while True:
            hook(step)
            try:
                if exc is not None:
                    e, exc = exc, None
                    yielded = it.throw(e)
                else:
                    yielded = it.send(value)
            except StopIteration as stop:
                return stop.value
            step += 1
            try:
                value = yield yielded
            except GeneratorExit:
                raise
            except BaseException as e2:  # noqa: BLE001 - re-thrown into the wrapped coroutine
                exc = e2
                value = None
    finally:
        it.close() if hasattr(it, "close") else None


class StepCounter:
    def __init__(self) -> None:
        self.steps = 0

    def __call__(self, k: int) -> None:
        self.steps = k + 1
