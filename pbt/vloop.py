"""H4 — virtual-time asyncio event loop.

`VLoop.time()` is a virtual clock.  The loop never sleeps: when it is idle it jumps to the next timer; when nothing
is runnable, no timer is pending and no external fd is registered it raises `Deadlock` (so "hangs" are
deterministic outcomes).  A run of SPIN_N consecutive busy iterations without time advancing also jumps to the
next timer (needed because a cancelled CancelScope re-arms itself with call_soon on every loop turn).
"""

from __future__ import annotations

import asyncio
import selectors
from collections.abc import Callable, Coroutine
from typing import Any

SPIN_N = 200


class Deadlock(Exception):
    """No task is runnable, no timer is pending and nothing external can wake the loop."""


def _task_dump(loop: "VLoop") -> str:
    """where every pending task is parked (innermost frames), for Deadlock messages"""
    import asyncio as _a

    out = []
    try:
        for t in _a.all_tasks(loop):
            if t.done():
                continue
            frames = t.get_stack(limit=3)
            where = " <- ".join(f"{f.f_code.co_filename.rsplit('/', 1)[-1]}:{f.f_lineno}:{f.f_code.co_name}" for f in reversed(frames))
            out.append(f"{t.get_name()}@{where}")
    except Exception as exc:  # noqa: BLE001
        return f" [task dump failed: {exc}]"
    return " | parked: " + "; ".join(sorted(out)[:8])


class _VSelector(selectors.DefaultSelector):  # type: ignore[misc,valid-type]
    """real selector polled with timeout 0; virtual waiting is done by the loop"""

    vloop: "VLoop"

    def select(self, timeout: float | None = None):  # type: ignore[override]
        loop = self.vloop
        loop.ticks += 1
        if loop.ticks > loop.max_ticks:
            raise Deadlock(f"tick budget exhausted ({loop.max_ticks} loop iterations)")
        for fn in loop._tick_hooks.pop(loop.ticks, ()):
            fn()
        if loop._ready:  # a tick hook scheduled something
            timeout = 0
        events = super().select(0)
        if events:
            loop._spin = 0
            return events
        if timeout is not None and timeout <= 0:
            # busy iteration
            loop._spin += 1
            if loop._spin >= loop.spin_n:
                loop._spin = 0
                nxt = loop._next_timer()
                if nxt is not None and nxt > loop._vtime:
                    loop._vtime = nxt
                    loop.spin_jumps += 1
                elif nxt is None and loop.livelock_is_deadlock:
                    loop._livelock_runs += 1
                    if loop._livelock_runs * loop.spin_n >= loop.livelock_ticks:
                        raise Deadlock(f"livelock: loop busy for {loop.livelock_ticks} iterations with no timer pending" + _task_dump(loop))
            return events
        loop._spin = 0
        loop._livelock_runs = 0
        nxt = loop._next_timer()
        if nxt is not None:
            if nxt > loop._vtime:
                loop._vtime = nxt
            return events
        # idle, no timers
        if loop.real_wait_s > 0 and (loop.external_fds() or loop.expect_thread_wakeups):
            events = super().select(loop.real_wait_s)
            if events:
                return events
        raise Deadlock("no runnable task, no pending timer, nothing external registered" + _task_dump(loop))


class VLoop(asyncio.SelectorEventLoop):
    def __init__(self) -> None:
        sel = _VSelector()
        sel.vloop = self
        self._vtime = 0.0
        self.ticks = 0
        self.max_ticks = 2_000_000
        self.spin_jumps = 0
        self.spin_n = SPIN_N  # busy iterations without time advancing before the clock jumps to the next timer
        self._spin = 0
        self._livelock_runs = 0
        self._tick_hooks: dict[int, list[Callable[[], None]]] = {}
        self.real_wait_s = 0.0  # > 0: allow a bounded real wait when idle (real fds / worker threads involved)
        self.expect_thread_wakeups = False
        self.livelock_is_deadlock = True
        self.livelock_ticks = 1_000_000  # consecutive busy iterations without any timer before the run is declared a livelock
        super().__init__(selector=sel)
        self._self_pipe_fds = {self._ssock.fileno()} if getattr(self, "_ssock", None) is not None else set()

    def time(self) -> float:
        return self._vtime

    def _next_timer(self) -> float | None:
        sched = self._scheduled
        while sched and sched[0]._cancelled:
            import heapq

            h = heapq.heappop(sched)
            h._scheduled = False
            self._timer_cancelled_count = max(0, self._timer_cancelled_count - 1)
        return sched[0]._when if sched else None

    def external_fds(self) -> list[int]:
        return [k.fd for k in self._selector.get_map().values() if k.fd not in self._self_pipe_fds]

    def at_tick(self, tick: int, fn: Callable[[], None]) -> None:
        self._tick_hooks.setdefault(tick, []).append(fn)

    def advance_idle_guard(self) -> None:  # pragma: no cover - debugging helper
        pass


def run_virtual(
    main: Callable[..., Coroutine[Any, Any, Any]],
    *args: Any,
    max_ticks: int = 2_000_000,
    real_wait_s: float = 0.0,
    debug: bool = False,
    spin_n: int | None = None,
) -> Any:
    """Run `main(*args)` to completion on a fresh VLoop.  Raises Deadlock if it cannot complete.
    The loop object is available inside as asyncio.get_running_loop()."""

    def factory() -> VLoop:
        loop = VLoop()
        loop.max_ticks = max_ticks
        loop.real_wait_s = real_wait_s
        if spin_n is not None:
            loop.spin_n = spin_n
        return loop

    runner = asyncio.Runner(loop_factory=factory, debug=debug)
    try:
        with runner:
            return runner.run(main(*args))
    finally:
        pass


async def vsleep_ticks(n: int) -> None:
    """yield to the loop n times without advancing time"""
    for _ in range(n):
        await asyncio.sleep(0)
