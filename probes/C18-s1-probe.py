import faulthandler, sys; faulthandler.dump_traceback_later(30, exit=True)
import asyncio, threading, time, socket
from easynetwork.servers.standalone_tcp import StandaloneTCPNetworkServer
from easynetwork.servers.handlers import AsyncStreamRequestHandler
from easynetwork.protocol import StreamProtocol
from easynetwork.serializers import StringLineSerializer
class H(AsyncStreamRequestHandler):
    async def service_init(self, exit_stack, server):
        await asyncio.sleep(0.3)
    async def handle(self, client):
        r = yield
        await client.send_packet(r.upper())
srv = StandaloneTCPNetworkServer("127.0.0.1", 0, StreamProtocol(StringLineSerializer()), H())
up = threading.Event()
t = threading.Thread(target=lambda: srv.serve_forever(is_up_event=up)); t.start()
time.sleep(0.1)
print("calling server_close() during set-up"); srv.server_close(); print("server_close() returned; is_serving:", srv.is_serving())
up.wait(5); print("up:", up.is_set(), "is_serving:", srv.is_serving(), "addresses:", srv.get_addresses())
a = srv.get_addresses()[0]
c = socket.create_connection((a.host, a.port)); c.sendall(b"hello\n"); print("echo from 'closed' server:", c.recv(100)); c.close()
srv.shutdown(); t.join(); print("after shutdown, thread alive:", t.is_alive())
try: srv.serve_forever()
except Exception as e: print(repr(e))
