import faulthandler, sys; faulthandler.dump_traceback_later(250, exit=True)
import asyncio, threading, time, socket, logging
logging.disable(logging.CRITICAL)
from easynetwork.servers.standalone_tcp import StandaloneTCPNetworkServer
from easynetwork.servers.handlers import AsyncStreamRequestHandler
from easynetwork.protocol import StreamProtocol
from easynetwork.serializers import StringLineSerializer
socks=[]
class H(AsyncStreamRequestHandler):
    async def service_init(self, exit_stack, server):
        socks[:] = list(server.get_sockets())
    async def handle(self, client):
        r = yield
        await client.send_packet(r.upper())
hits=[]
N=400
for i in range(N):
    srv = StandaloneTCPNetworkServer("127.0.0.1", 0, StreamProtocol(StringLineSerializer()), H())
    up = threading.Event()
    t = threading.Thread(target=lambda: srv.serve_forever(is_up_event=up)); t.start(); up.wait()
    s = threading.Thread(target=srv.shutdown); s.start()
    d = (i % 40) * 0.00005
    t0=time.perf_counter()
    while time.perf_counter()-t0 < d: pass
    srv.server_close()
    open_now = [x.fileno() for x in socks]
    s.join(); t.join()
    if any(f != -1 for f in open_now): hits.append(d)
    assert all(x.fileno()==-1 for x in socks)
print("server_close() returned with listener still open:", len(hits), "/", N, hits[:10])
