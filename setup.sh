#!/bin/bash
# Offline setup: make sure /venv has hypothesis; optionally install atheris into /verif/.deps; byte-compile.
set -u
cd "$(dirname "$0")"
export PIP_NO_INDEX=1
if ! /venv/bin/python -c "import hypothesis" 2>/dev/null; then
  /venv/bin/pip install --no-index --find-links /opt/veriftools/wheels hypothesis || { echo "cannot install hypothesis"; exit 1; }
fi
if [ ! -d .deps/atheris ]; then
  /venv/bin/pip install -q --no-index --find-links /opt/veriftools/wheels --target .deps atheris >/dev/null 2>&1 \
    || echo "atheris not installable for /venv's python: C06 thorough runs Hypothesis only"
fi
if [ ! -f certs/server.pem ]; then
  [ -x tools/gen_certs.sh ] && tools/gen_certs.sh || true
fi
/venv/bin/python -m compileall -q pbt >/dev/null 2>&1 || true
/venv/bin/python -c "import easynetwork, hypothesis; print('setup ok', easynetwork.__file__, hypothesis.__version__)"
